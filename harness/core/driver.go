package core

import (
	"bufio"
	"bytes"
	"crypto/sha1"
	"encoding/hex"
	"encoding/json"
	"fmt"
	"math/rand"
	"os"
	"os/exec"
	"path/filepath"
	"regexp"
	"runtime"
	"sort"
	"strconv"
	"strings"
	"sync"
	"syscall"
	"time"
)

// Driver is the driver-side context of one check run.
type Driver struct {
	Prop    Prop
	Tier    string // quick | thorough
	Seed    int64
	Root    string // /verif
	Scratch string // per-run scratch directory (removed at exit)
	T       *Tally
	Start   time.Time

	known      []Finding
	exe        string
	raceExe    string
	raceOnce   sync.Once
	raceErr    error
	violMu     sync.Mutex
	violSeen   map[string]bool
	replayOnly bool
}

// Thorough reports whether the thorough tier is running.
func (d *Driver) Thorough() bool { return d.Tier == "thorough" }

// N picks a case count by tier.
func (d *Driver) N(quick, thorough int) int {
	if d.Thorough() {
		return thorough
	}
	return quick
}

// Rand returns a named PRNG for this run.
func (d *Driver) Rand(name string) *rand.Rand { return Rand(d.Seed, d.Prop.ID()+"/"+name) }

// RunOpts controls how a batch is executed.
type RunOpts struct {
	Race       bool          // run under the race-detector build
	Workers    int           // parallel children (default: min(12, NumCPU-2))
	Chunk      int           // cases per child (default: spread)
	CaseWall   time.Duration // wall-clock watchdog per case (default 120s); firing = Timeout (inconclusive)
	Env        []string      // extra environment for children
	NoTally    bool          // do not tally results automatically (driver-side oracle does it)
	GOMAXPROCS int           // if >0, set for the children
	MemLimitMB int           // GOMEMLIMIT for children (default 3072)
}

// Run executes the cases in worker children and returns the results in order.
func (d *Driver) Run(cases []Case, o RunOpts) []Result {
	if len(cases) == 0 {
		return nil
	}
	if o.Workers <= 0 {
		o.Workers = runtime.NumCPU() - 2
		if o.Workers > 14 {
			o.Workers = 14
		}
		if o.Workers < 1 {
			o.Workers = 1
		}
	}
	if o.Chunk <= 0 {
		o.Chunk = (len(cases) + o.Workers*3 - 1) / (o.Workers * 3)
		if o.Chunk < 1 {
			o.Chunk = 1
		}
		if o.Chunk > 5000 {
			o.Chunk = 5000
		}
	}
	if o.CaseWall == 0 {
		o.CaseWall = 120 * time.Second
	}
	if o.MemLimitMB == 0 {
		o.MemLimitMB = 3072
	}
	exe := d.exe
	if o.Race {
		var err error
		exe, err = d.RaceExe()
		if err != nil {
			fmt.Fprintf(os.Stderr, "core: cannot build race binary: %v\n", err)
			os.Exit(2)
		}
	}
	results := make([]Result, len(cases))
	type chunk struct{ lo, hi int }
	var chunks []chunk
	for lo := 0; lo < len(cases); lo += o.Chunk {
		hi := lo + o.Chunk
		if hi > len(cases) {
			hi = len(cases)
		}
		chunks = append(chunks, chunk{lo, hi})
	}
	ch := make(chan chunk)
	var wg sync.WaitGroup
	for w := 0; w < o.Workers; w++ {
		wg.Add(1)
		go func() {
			defer wg.Done()
			for c := range ch {
				d.runChunk(exe, cases[c.lo:c.hi], results[c.lo:c.hi], o)
			}
		}()
	}
	for _, c := range chunks {
		ch <- c
	}
	close(ch)
	wg.Wait()
	if !o.NoTally {
		for i := range results {
			d.Judge(cases[i], results[i])
		}
	}
	return results
}

var chunkSeq struct {
	sync.Mutex
	n int
}

// runChunk runs the cases sequentially in children, restarting after a crash.
func (d *Driver) runChunk(exe string, cases []Case, results []Result, o RunOpts) {
	chunkSeq.Lock()
	chunkSeq.n++
	id := chunkSeq.n
	chunkSeq.Unlock()
	dir := filepath.Join(d.Scratch, fmt.Sprintf("chunk%05d", id))
	os.MkdirAll(dir, 0o755)
	defer os.RemoveAll(dir)
	batch := filepath.Join(dir, "batch.jsonl")
	{
		var buf bytes.Buffer
		enc := json.NewEncoder(&buf)
		for _, c := range cases {
			enc.Encode(c)
		}
		os.WriteFile(batch, buf.Bytes(), 0o644)
	}
	start := 0
	crashConfirm := false
	firstTail := ""
	for attempt := 0; start < len(cases); attempt++ {
		journal := filepath.Join(dir, fmt.Sprintf("journal%d", attempt))
		stderrFile := filepath.Join(dir, fmt.Sprintf("stderr%d", attempt))
		raceLog := filepath.Join(dir, fmt.Sprintf("race%d", attempt))
		end := len(cases)
		if crashConfirm {
			end = start + 1 // re-run the journalled case alone in a fresh child
		}
		cmd := exec.Command(exe, "worker", d.Prop.ID(), batch, journal, strconv.Itoa(start), strconv.Itoa(end))
		cmd.Env = append(os.Environ(),
			"VERIF_TIER="+d.Tier, "VERIF_SEED="+strconv.FormatInt(d.Seed, 10),
			"VERIF_CASE_WALL_MS="+strconv.FormatInt(o.CaseWall.Milliseconds(), 10),
			"VERIF_SCRATCH="+dir,
			"GOMEMLIMIT="+strconv.Itoa(o.MemLimitMB)+"MiB",
			"GOTRACEBACK=all",
		)
		if o.Race {
			cmd.Env = append(cmd.Env, "GORACE=halt_on_error=0 log_path="+raceLog, "VERIF_RACELOG="+raceLog)
		}
		if o.GOMAXPROCS > 0 {
			cmd.Env = append(cmd.Env, "GOMAXPROCS="+strconv.Itoa(o.GOMAXPROCS))
		}
		cmd.Env = append(cmd.Env, o.Env...)
		ef, _ := os.Create(stderrFile)
		cmd.Stderr = ef
		cmd.Stdout = ef
		err := cmd.Run()
		ef.Close()
		done, begun := readJournal(journal, results, start)
		if err == nil && done == end {
			if crashConfirm {
				// the case killed its child inside the batch but not alone: still a process death
				crashConfirm = false
				results[start] = Result{ID: cases[start].ID, Status: Crash, Detail: "worker child died while running this case after earlier cases of the batch (not reproduced in a fresh child)\n" + firstTail}
			}
			start = end
			continue
		}
		// Abnormal end. "begun" is the index journalled BEGIN without END (or -1).
		tail := tailFile(stderrFile, 6000)
		if t2 := tailFile(filepath.Join(dir, "fd2.txt"), 6000); t2 != "" {
			// a check that redirects fd 2 around a run (C01, C14) gets the crash report there
			tail += "\n[fd 2 capture]\n" + t2
		}
		code := -1
		if ee, ok := err.(*exec.ExitError); ok {
			code = ee.ExitCode()
			if ws, ok := ee.Sys().(syscall.WaitStatus); ok && ws.Signaled() {
				tail = fmt.Sprintf("[child killed by signal %v]\n%s", ws.Signal(), tail)
			}
		}
		if begun < 0 {
			// died between cases or at start-up: harness problem, mark the next case inconclusive
			idx := done
			if idx >= len(cases) {
				break
			}
			results[idx] = Result{ID: cases[idx].ID, Status: Inconclusive, Detail: fmt.Sprintf("worker exited (code %d) outside any case: %s", code, Truncate(tail, 1500))}
			start = idx + 1
			crashConfirm = false
			continue
		}
		if code == 3 { // watchdog
			results[begun] = Result{ID: cases[begun].ID, Status: Timeout, Detail: "wall-clock watchdog fired\n" + Truncate(tail, 4000)}
			start = begun + 1
			crashConfirm = false
			continue
		}
		if !crashConfirm && begun > start {
			// confirm the crash by re-running the journalled case alone in a fresh child
			start = begun
			crashConfirm = true
			firstTail = tail
			continue
		}
		results[begun] = Result{ID: cases[begun].ID, Status: Crash, Detail: fmt.Sprintf("worker child died (exit %d) while running this case\n%s", code, tail)}
		start = begun + 1
		crashConfirm = false
	}
}

func readJournal(path string, results []Result, from int) (done int, begun int) {
	done, begun = from, -1
	f, err := os.Open(path)
	if err != nil {
		return
	}
	defer f.Close()
	sc := bufio.NewScanner(f)
	sc.Buffer(make([]byte, 1<<20), 1<<28)
	for sc.Scan() {
		line := sc.Bytes()
		if len(line) < 2 {
			continue
		}
		switch line[0] {
		case 'B':
			i, _ := strconv.Atoi(string(line[2:]))
			begun = i
		case 'E':
			sp := bytes.IndexByte(line[2:], ' ')
			if sp < 0 {
				continue
			}
			i, _ := strconv.Atoi(string(line[2 : 2+sp]))
			var r Result
			if json.Unmarshal(line[2+sp+1:], &r) == nil && i >= 0 && i < len(results) {
				results[i] = r
				done = i + 1
				begun = -1
			}
		}
	}
	return
}

func tailFile(path string, n int) string {
	b, err := os.ReadFile(path)
	if err != nil {
		return ""
	}
	// keep the head of a Go crash (the reason) and the tail
	if len(b) > n {
		head := b[:n/2]
		tail := b[len(b)-n/2:]
		return string(head) + "\n…\n" + string(tail)
	}
	return string(b)
}

// Judge tallies one result and reports a violation if it is one.
func (d *Driver) Judge(c Case, r Result) {
	if r.Evals > 1 {
		d.T.Eval(r.Evals)
	} else {
		d.T.Eval(1)
	}
	d.T.Sig(r.Sigs...)
	for k, v := range r.Counts {
		d.T.Count(k, v)
	}
	if r.Races > 0 {
		d.T.Count("race_reports", int64(r.Races))
		if strings.Contains(r.Race, "github.com/open2b/scriggo") {
			// a data race with a scriggo frame is a violation of its own, whatever the case's verdict
			sig := RaceSignature(r.Race)
			d.violMu.Lock()
			seen := d.violSeen["race:"+sig]
			d.violSeen["race:"+sig] = true
			d.violMu.Unlock()
			d.T.Sig("race:" + sig)
			if !seen {
				rc := c
				rc.ID = c.ID + "/race"
				d.ReportViolation(rc, Result{ID: rc.ID, Status: Violation, Detail: "the race detector reported a data race with scriggo frames while running this case\n" + r.Race, Race: r.Race, Races: r.Races})
			}
		} else {
			d.T.Count("race_reports_without_scriggo_frame", int64(r.Races))
		}
	}
	switch r.Status {
	case OK:
	case Skip:
		d.T.mu.Lock()
		d.T.Skipped++
		d.T.mu.Unlock()
	case Inconclusive, Timeout:
		d.T.mu.Lock()
		d.T.Inconclusive++
		d.T.mu.Unlock()
		fmt.Printf("INCONCLUSIVE property=%s case=%s %s\n", d.Prop.ID(), c.ID, Truncate(firstLine(r.Detail), 200))
	case Violation, Crash:
		d.ReportViolation(c, r)
	case "":
		d.T.mu.Lock()
		d.T.Inconclusive++
		d.T.mu.Unlock()
		fmt.Printf("INCONCLUSIVE property=%s case=%s no result recorded\n", d.Prop.ID(), c.ID)
	}
}

func firstLine(s string) string {
	if i := strings.IndexByte(s, '\n'); i >= 0 {
		return s[:i]
	}
	return s
}

// Replay is the content of a replay file.
type Replay struct {
	Property string `json:"property"`
	Tier     string `json:"tier"`
	Seed     int64  `json:"seed"`
	Case     Case   `json:"case"`
	Result   Result `json:"result"`
}

// ReportViolation writes the replay file and prints the VIOLATION line.
// A case whose data equals the witness of an open known finding is not reported.
func (d *Driver) ReportViolation(c Case, r Result) {
	for _, k := range d.known {
		if k.Status == "open" && bytes.Equal(compactJSON(k.Witness.Data), compactJSON(c.Data)) {
			return
		}
	}
	h := sha1.Sum(append([]byte(d.Prop.ID()), c.Data...))
	name := hex.EncodeToString(h[:8])
	d.violMu.Lock()
	if d.violSeen[name] {
		d.violMu.Unlock()
		return
	}
	d.violSeen[name] = true
	d.violMu.Unlock()
	d.T.mu.Lock()
	d.T.Violations++
	nv := d.T.Violations
	d.T.mu.Unlock()
	if nv > 40 {
		return // enough witnesses; the count is still reported
	}
	dir := filepath.Join(d.Root, "replays", d.Prop.ID())
	os.MkdirAll(dir, 0o755)
	path := filepath.Join(dir, name+".json")
	b, _ := json.MarshalIndent(Replay{Property: d.Prop.ID(), Tier: d.Tier, Seed: d.Seed, Case: c, Result: r}, "", " ")
	os.WriteFile(path, b, 0o644)
	short := r.Detail
	if i := strings.Index(short, "\n--- source ---"); i >= 0 {
		short = short[:i]
	}
	fmt.Printf("DETAIL property=%s case=%s status=%s %s\n", d.Prop.ID(), c.ID, r.Status, Truncate(strings.ReplaceAll(short, "\n", " ⏎ "), 900))
	fmt.Printf("VIOLATION property=%s replay=%s\n", d.Prop.ID(), path)
}

func compactJSON(b []byte) []byte {
	var buf bytes.Buffer
	if json.Compact(&buf, b) != nil {
		return b
	}
	return buf.Bytes()
}

// RaceExe builds (once) and returns the race-detector worker binary.
func (d *Driver) RaceExe() (string, error) {
	d.raceOnce.Do(func() {
		if p := os.Getenv("VERIF_RACE_EXE"); p != "" {
			d.raceExe = p
			return
		}
		d.raceErr = fmt.Errorf("VERIF_RACE_EXE not set (the check script builds the race binary)")
	})
	return d.raceExe, d.raceErr
}

var raceHdr = regexp.MustCompile(`(?m)^WARNING: DATA RACE`)

// CountRaces counts race reports in text.
func CountRaces(s string) int { return len(raceHdr.FindAllStringIndex(s, -1)) }

var lineNo = regexp.MustCompile(`:\d+( \+0x[0-9a-f]+)?`)

// RaceSignature reduces a race report to the pair of outermost scriggo entry
// points plus the stack pair with line numbers stripped.
func RaceSignature(report string) string {
	var frames []string
	for _, l := range strings.Split(report, "\n") {
		l = strings.TrimSpace(l)
		if strings.HasPrefix(l, "github.com/open2b/scriggo") {
			if i := strings.IndexByte(l, '('); i > 0 {
				l = l[:i]
			}
			frames = append(frames, l)
		}
	}
	sort.Strings(frames)
	frames = uniq(frames)
	return lineNo.ReplaceAllString(strings.Join(frames, ";"), "")
}

func uniq(s []string) []string {
	var out []string
	for i, x := range s {
		if i == 0 || x != s[i-1] {
			out = append(out, x)
		}
	}
	return out
}

// WriteEvidence writes evidence/<id>.json.
func (d *Driver) WriteEvidence() error {
	t := d.T
	t.mu.Lock()
	defer t.mu.Unlock()
	cov := map[string]any{}
	for k, v := range t.Extra {
		cov[k] = v
	}
	cov["evaluations"] = t.Evaluations
	cov["distinct_nontrivial"] = len(t.Distinct)
	cov["rule"] = t.Rule
	samples := t.Samples
	if samples == nil {
		samples = []any{}
	}
	cov["samples"] = samples
	if t.Exhaustive {
		cov["exhaustive"] = true
	}
	cov["monitor_counts"] = t.Counts
	cov["inconclusive"] = t.Inconclusive
	cov["skipped"] = t.Skipped
	if t.Known == nil {
		t.Known = []string{}
	}
	cov["known_findings_replayed"] = t.Known
	// a few of the distinct signatures, so a reader sees what "distinct" means
	var sigs []string
	for s := range t.Distinct {
		sigs = append(sigs, s)
	}
	sort.Strings(sigs)
	if len(sigs) > 40 {
		step := len(sigs) / 40
		var pick []string
		for i := 0; i < len(sigs); i += step {
			pick = append(pick, sigs[i])
		}
		sigs = pick
	}
	cov["distinct_signature_examples"] = sigs
	ev := map[string]any{
		"property_id": d.Prop.ID(),
		"tier":        d.Tier,
		"seed":        d.Seed,
		"level":       d.Prop.Level(),
		"coverage":    cov,
		"assumptions": t.Assumptions,
		"wall_s":      time.Since(d.Start).Seconds(),
		"violations":  t.Violations,
	}
	if t.Assumptions == nil {
		ev["assumptions"] = []string{}
	}
	b, err := json.MarshalIndent(ev, "", " ")
	if err != nil {
		return err
	}
	dir := filepath.Join(d.Root, "evidence")
	if os.Getenv("VERIF_REPO") != "" {
		// Development run against a scratch copy of the repository: the
		// evidence directory only holds runs against /repo itself.
		dir = filepath.Join(d.Root, ".bin", "evidence-scratch")
	}
	os.MkdirAll(dir, 0o755)
	return os.WriteFile(filepath.Join(dir, d.Prop.ID()+".json"), b, 0o644)
}
