package core

import (
	"encoding/json"
	"fmt"
	"os"
	"path/filepath"
	"strings"
)

// Finding is one entry of /verif/known_findings.json.
//
// status "open": a genuine defect of the pinned tree that is recorded rather than
// repaired. The witness case is replayed on every run; if it still fails the check
// prints a KNOWN-FINDING line. Scope names the generator predicate that keeps the
// random sweep away from exactly this construct.
//
// status "fixed": a genuine defect repaired by a "fix:" commit; it suppresses
// nothing. The witness is replayed as an ordinary case (regression).
type Finding struct {
	Property string `json:"property"`
	ID       string `json:"id"`
	Status   string `json:"status"` // open | fixed
	Commit   string `json:"commit,omitempty"`
	What     string `json:"what"`
	Scope    string `json:"scope,omitempty"`
	Witness  Case   `json:"witness"`
}

// LoadFindings reads known_findings.json for one property.
func LoadFindings(root, prop string) ([]Finding, error) {
	b, err := os.ReadFile(filepath.Join(root, "known_findings.json"))
	if err != nil {
		if os.IsNotExist(err) {
			return nil, nil
		}
		return nil, err
	}
	var all struct {
		Findings []Finding `json:"findings"`
	}
	if err := json.Unmarshal(b, &all); err != nil {
		return nil, fmt.Errorf("known_findings.json: %v", err)
	}
	var out []Finding
	for _, f := range all.Findings {
		if f.Property == prop {
			out = append(out, f)
		}
	}
	if len(out) == 0 {
		// a check that is not landed yet: read its own findings.json (development)
		if b, err := os.ReadFile(filepath.Join(root, "harness", "props", strings.ToLower(prop), "findings.json")); err == nil {
			var fs []Finding
			if err := json.Unmarshal(b, &fs); err != nil {
				return nil, fmt.Errorf("props/%s/findings.json: %v", strings.ToLower(prop), err)
			}
			out = fs
		}
	}
	return out, nil
}

// ReplayFindings re-executes the witness of every listed finding.
// Open findings that still fail print KNOWN-FINDING; fixed ones are judged like
// any other case (a failure is a VIOLATION: the defect has returned).
func (d *Driver) ReplayFindings() {
	for _, f := range d.known {
		if len(f.Witness.Data) == 0 {
			continue
		}
		c := f.Witness
		if c.ID == "" {
			c.ID = "finding:" + f.ID
		}
		var r Result
		if rp, ok := d.Prop.(Replayer); ok {
			r = rp.ReplayCase(d, c)
		} else {
			r = d.Run([]Case{c}, RunOpts{Workers: 1, NoTally: true})[0]
		}
		d.T.Eval(1)
		switch f.Status {
		case "open":
			if r.Status == Violation || r.Status == Crash {
				fmt.Printf("KNOWN-FINDING: property=%s %s (%s)\n", d.Prop.ID(), f.What, f.ID)
				d.T.mu.Lock()
				d.T.Known = append(d.T.Known, f.ID+": still fails")
				d.T.mu.Unlock()
			} else {
				fmt.Printf("NOTE property=%s known finding %s no longer reproduces (status %s)\n", d.Prop.ID(), f.ID, r.Status)
				d.T.mu.Lock()
				d.T.Known = append(d.T.Known, f.ID+": no longer reproduces")
				d.T.mu.Unlock()
			}
		default: // fixed
			d.T.mu.Lock()
			d.T.Known = append(d.T.Known, f.ID+": fixed, replayed as regression: "+r.Status)
			d.T.mu.Unlock()
			if r.Status == Violation || r.Status == Crash {
				d.ReportViolation(c, r)
			}
		}
	}
}

// Replayer is implemented by checks whose oracle runs in the driver.
type Replayer interface {
	ReplayCase(d *Driver, c Case) Result
}

// InScope reports whether an open finding with the given scope name is listed.
// Generators call it to keep the sweep away from a recorded construct; when the
// finding is removed from the file the construct is explored again.
func (d *Driver) InScope(scope string) bool {
	for _, f := range d.known {
		if f.Status == "open" && f.Scope == scope {
			return true
		}
	}
	return false
}
