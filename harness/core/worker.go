package core

import (
	"bufio"
	"encoding/json"
	"fmt"
	"os"
	"runtime"
	"runtime/debug"
	"strconv"
	"sync/atomic"
	"syscall"
	"time"
)

// WorkerMain runs cases [from,to) of a batch file, journalling each one.
func WorkerMain(args []string) int {
	if len(args) < 5 {
		fmt.Fprintln(os.Stderr, "usage: worker <prop> <batch> <journal> <from> <to>")
		return 2
	}
	p := Lookup(args[0])
	if p == nil {
		fmt.Fprintln(os.Stderr, "unknown property", args[0])
		return 2
	}
	from, _ := strconv.Atoi(args[3])
	to, _ := strconv.Atoi(args[4])
	bf, err := os.Open(args[1])
	if err != nil {
		fmt.Fprintln(os.Stderr, err)
		return 2
	}
	defer bf.Close()
	jf, err := os.OpenFile(args[2], os.O_CREATE|os.O_WRONLY|os.O_APPEND, 0o644)
	if err != nil {
		fmt.Fprintln(os.Stderr, err)
		return 2
	}
	defer jf.Close()
	wallMS, _ := strconv.ParseInt(os.Getenv("VERIF_CASE_WALL_MS"), 10, 64)
	if wallMS <= 0 {
		wallMS = 120000
	}
	raceLog := os.Getenv("VERIF_RACELOG")
	if raceLog != "" {
		raceLog = raceLog + "." + strconv.Itoa(os.Getpid())
	}
	// watchdog: a case that runs longer than the wall budget ends the child with exit 3
	var caseStart atomic.Int64
	go func() {
		for {
			time.Sleep(200 * time.Millisecond)
			s := caseStart.Load()
			if s != 0 && time.Now().UnixMilli()-s > wallMS {
				buf := make([]byte, 1<<20)
				n := runtime.Stack(buf, true)
				os.Stderr.Write(buf[:n])
				os.Exit(3)
			}
		}
	}()
	sc := bufio.NewScanner(bf)
	sc.Buffer(make([]byte, 1<<20), 1<<28)
	idx := -1
	var raceOff int64
	for sc.Scan() {
		idx++
		if idx < from {
			continue
		}
		if idx >= to {
			break
		}
		var c Case
		if err := json.Unmarshal(sc.Bytes(), &c); err != nil {
			fmt.Fprintln(os.Stderr, "bad case line:", err)
			return 2
		}
		fmt.Fprintf(jf, "B %d\n", idx)
		cpu0 := cpuMillis()
		caseStart.Store(time.Now().UnixMilli())
		r := safeWork(p, c)
		caseStart.Store(0)
		r.CPUms = cpuMillis() - cpu0
		r.ID = c.ID
		if raceLog != "" {
			if b, err := os.ReadFile(raceLog); err == nil && int64(len(b)) > raceOff {
				text := string(b[raceOff:])
				raceOff = int64(len(b))
				r.Races = CountRaces(text)
				r.Race = Truncate(text, 12000)
			}
		}
		b, _ := json.Marshal(r)
		fmt.Fprintf(jf, "E %d %s\n", idx, b)
	}
	return 0
}

// safeWork runs Work; a panic that reaches here is a harness panic (scriggo API
// calls are wrapped by the props' own sentinels) and is reported as inconclusive.
func safeWork(p Prop, c Case) (r Result) {
	defer func() {
		if v := recover(); v != nil {
			r = Result{Status: Inconclusive, Detail: fmt.Sprintf("harness panic in Work: %v\n%s", v, debug.Stack())}
		}
	}()
	return p.Work(c)
}

func cpuMillis() int64 {
	var ru syscall.Rusage
	if syscall.Getrusage(syscall.RUSAGE_SELF, &ru) != nil {
		return 0
	}
	return (ru.Utime.Sec+ru.Stime.Sec)*1000 + int64(ru.Utime.Usec+ru.Stime.Usec)/1000
}

// Guard runs f under a host-panic sentinel. It returns the recovered value (nil
// if f returned normally), whether f panicked, and the stack at the panic.
func Guard(f func()) (val any, panicked bool, stack string) {
	defer func() {
		if v := recover(); v != nil {
			val, panicked, stack = v, true, string(debug.Stack())
		}
	}()
	f()
	return nil, false, ""
}
