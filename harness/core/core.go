// Package core is the driver/worker skeleton shared by every property check.
//
// The driver (vcheck run) never executes scriggo code itself. It generates cases
// from VERIF_SEED, hands them in batches to worker children (vcheck worker) that
// journal BEGIN/END around every case, attributes a child death to the journalled
// case, tallies monitor observations and writes evidence/<id>.json.
package core

import (
	"encoding/json"
	"fmt"
	"math/rand"
	"os"
	"sort"
	"strconv"
	"strings"
	"sync"
)

// Case is one unit of work executed in a worker child.
type Case struct {
	ID   string          `json:"id"`
	Data json.RawMessage `json:"data"`
}

// Status values of a Result.
const (
	OK           = "ok"
	Violation    = "violation"
	Inconclusive = "inconclusive"
	Skip         = "skip"
	Crash        = "crash"   // the worker child died while running the case
	Timeout      = "timeout" // wall-clock watchdog fired (inconclusive unless a prop decides otherwise)
)

// Result is what a worker reports for one case.
type Result struct {
	ID     string           `json:"id"`
	Status string           `json:"status"`
	Detail string           `json:"detail,omitempty"`
	Evals  int64            `json:"evals,omitempty"`  // executions this case stands for (default 1)
	Sigs   []string         `json:"sigs,omitempty"`   // non-triviality signatures observed (distinct ones are counted)
	Counts map[string]int64 `json:"counts,omitempty"` // monitor event counters (summed)
	Out    json.RawMessage  `json:"out,omitempty"`    // payload for driver-side oracles
	CPUms  int64            `json:"cpu_ms,omitempty"`
	Races  int              `json:"races,omitempty"`
	Race   string           `json:"race,omitempty"`
}

// Prop is a property check.
type Prop interface {
	ID() string
	// Level is the MANIFEST level category of the evidence ("exploration", "fault_enumeration").
	Level() string
	// Drive runs in the driver process.
	Drive(d *Driver) error
	// Work runs one case in a worker child.
	Work(c Case) Result
}

var registry = map[string]Prop{}

// Register adds a property check. Called from init functions.
func Register(p Prop) { registry[p.ID()] = p }

// Lookup returns the registered check.
func Lookup(id string) Prop { return registry[id] }

// IDs lists registered ids.
func IDs() []string {
	var ids []string
	for id := range registry {
		ids = append(ids, id)
	}
	sort.Strings(ids)
	return ids
}

// MustJSON marshals v or panics.
func MustJSON(v any) json.RawMessage {
	b, err := json.Marshal(v)
	if err != nil {
		panic(err)
	}
	return b
}

// NewCase builds a case from any JSON-serialisable value.
func NewCase(id string, v any) Case { return Case{ID: id, Data: MustJSON(v)} }

// Decode unmarshals the case data into v (panics on malformed data: harness bug).
func (c Case) Decode(v any) {
	if err := json.Unmarshal(c.Data, v); err != nil {
		panic(fmt.Sprintf("core: bad case data for %s: %v", c.ID, err))
	}
}

// Seed returns VERIF_SEED (default 1).
func Seed() int64 {
	if s := os.Getenv("VERIF_SEED"); s != "" {
		if n, err := strconv.ParseInt(s, 10, 64); err == nil {
			return n
		}
	}
	return 1
}

// Rand returns a PRNG determined by seed and a name, so that independent
// generators do not disturb each other.
func Rand(seed int64, name string) *rand.Rand {
	h := uint64(seed)*0x9E3779B97F4A7C15 + 0xD1B54A32D192ED03
	for i := 0; i < len(name); i++ {
		h ^= uint64(name[i])
		h *= 0x100000001B3
	}
	return rand.New(rand.NewSource(int64(h)))
}

// Tally collects evidence in the driver. Safe for concurrent use.
type Tally struct {
	mu           sync.Mutex
	Evaluations  int64
	Distinct     map[string]struct{}
	Counts       map[string]int64
	Samples      []any
	Inconclusive int64
	Skipped      int64
	Violations   int64
	Known        []string
	Extra        map[string]any
	Rule         string
	Exhaustive   bool
	Assumptions  []string
	maxSamples   int
}

func newTally() *Tally {
	return &Tally{Distinct: map[string]struct{}{}, Counts: map[string]int64{}, Extra: map[string]any{}, maxSamples: 6}
}

// Sig records non-triviality signatures.
func (t *Tally) Sig(sigs ...string) {
	t.mu.Lock()
	for _, s := range sigs {
		t.Distinct[s] = struct{}{}
	}
	t.mu.Unlock()
}

// Count adds n to a named monitor counter.
func (t *Tally) Count(name string, n int64) {
	t.mu.Lock()
	t.Counts[name] += n
	t.mu.Unlock()
}

// Eval adds n evaluations.
func (t *Tally) Eval(n int64) {
	t.mu.Lock()
	t.Evaluations += n
	t.mu.Unlock()
}

// Sample keeps up to a handful of actual cases for the evidence file.
func (t *Tally) Sample(v any) {
	t.mu.Lock()
	if len(t.Samples) < t.maxSamples {
		t.Samples = append(t.Samples, v)
	}
	t.mu.Unlock()
}

// Set stores an extra coverage key.
func (t *Tally) Set(key string, v any) {
	t.mu.Lock()
	t.Extra[key] = v
	t.mu.Unlock()
}

// Truncate shortens s for reports.
func Truncate(s string, n int) string {
	if len(s) <= n {
		return s
	}
	return s[:n] + fmt.Sprintf("…(+%d bytes)", len(s)-n)
}

// SigJoin builds a signature from parts.
func SigJoin(parts ...string) string { return strings.Join(parts, "|") }
