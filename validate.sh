#!/bin/bash
# Validates MANIFEST.json and every evidence file against the schemas.
cd "$(dirname "$0")"
python3-vt - <<'PY'
import json,jsonschema,glob,sys
ok=True
try:
    jsonschema.validate(json.load(open('MANIFEST.json')), json.load(open('/root/.vp/MANIFEST.schema.json')))
    print('MANIFEST.json valid')
except Exception as e:
    ok=False; print('MANIFEST.json INVALID', e)
sch=json.load(open('/root/.vp/EVIDENCE.schema.json'))
for f in sorted(glob.glob('evidence/*.json')):
    try:
        jsonschema.validate(json.load(open(f)), sch)
    except Exception as e:
        ok=False; print(f,'INVALID',str(e)[:300])
print('evidence checked:', len(glob.glob('evidence/*.json')))
sys.exit(0 if ok else 1)
PY
