#!/bin/bash
# Development aid: apply a proposed fix to /repo and commit it.  usage: applyfix.sh <diff> <subject> [body]
set -e
. /verif/env.sh
d="$1"; subj="$2"; body="${3:-}"
cd /repo
git apply --check "$d" 2>/dev/null || { echo "does not apply cleanly: $d"; git apply --check "$d"; exit 1; }
git apply "$d"
gofmt -l $(git diff --name-only | grep '\.go$') | grep . && { echo "gofmt needed"; }
"$VGO" build ./... && "$VGO" build -tags verif ./...
"$VGO" test -vet=off -count=1 $(git diff --name-only | xargs -n1 dirname | sort -u | sed 's#^#./#') 2>&1 | tail -5
git add -A $(git diff --name-only)
if [ -n "$body" ]; then git commit -q -m "fix: $subj" -m "$body"; else git commit -q -m "fix: $subj"; fi
git log --oneline | head -1
echo "$(basename "$d") $(git log --format=%h -1)" >> /verif/proposed_fixes/APPLIED.txt
/verif/auditfixes.sh 30 | sed "s/^/AUDIT: /"
