# Sourced by check and setup.sh: pins the Go toolchain and the offline flags.
export GOFLAGS=-mod=mod GOPROXY=off GOTOOLCHAIN=local GONOSUMDB='*' GONOSUMCHECK=1 GOFLAGS=-mod=mod
unset GOSUMDB
VERIF_ROOT="$(cd "$(dirname "${BASH_SOURCE[0]}")" && pwd)"
export VERIF_ROOT
VGO=""
for cand in /root/go/pkg/mod/golang.org/toolchain@v0.0.1-go1.25.0.linux-amd64/bin/go "$(command -v go1.26.8 2>/dev/null)"; do
  if [ -n "$cand" ] && [ -x "$cand" ]; then VGO="$cand"; break; fi
done
if [ -z "$VGO" ]; then VGO="$(command -v go)"; export GOTOOLCHAIN=auto; fi
export VGO
export PATH="$(dirname "$VGO"):$PATH"
# Development only: VERIF_REPO=<scratch copy of /repo> points the build at a mutant copy.
VERIF_MODFLAG=""
VERIF_BIN="$VERIF_ROOT/.bin"
if [ -n "${VERIF_REPO:-}" ]; then
  key=$(printf %s "$VERIF_REPO" | sha1sum | cut -c1-12)
  VERIF_BIN="${TMPDIR:-/tmp}/vcheck-bin-$key"
  mkdir -p "$VERIF_BIN"
  sed "s#=> /repo#=> $VERIF_REPO#" "$VERIF_ROOT/harness/go.mod" > "$VERIF_BIN/go.mod"
  cp "$VERIF_ROOT/harness/go.sum" "$VERIF_BIN/go.sum"
  VERIF_MODFLAG="-modfile=$VERIF_BIN/go.mod"
fi
export VERIF_BIN VERIF_MODFLAG
