#!/bin/bash
# Runs the quick (or given) tier of every landed check; prints one line per check. usage: runall.sh [tier] [seed]
cd "$(dirname "$0")"
tier="${1:-quick}"; export VERIF_SEED="${2:-1}"
for id in $(python3 -c "import json;print(' '.join(c['property_id'] for c in json.load(open('MANIFEST.json'))['checks']))"); do
  out=$(./check $id $tier 2>&1); rc=$?
  echo "$id rc=$rc $(echo "$out" | grep '^SUMMARY' | cut -d' ' -f4-)"
  [ $rc -ne 0 ] && echo "$out" | grep -v "^  monitor\|^KNOWN-FINDING" | head -8 | cut -c1-400
done
