#!/usr/bin/env python3
"""Development aid: add/replace a C01-style finding (program + gc behaviour) in a prop's findings.json.
usage: addfinding.py <prop> <id> <open|fixed> <commit|-> <scope|-> <what> <src-file> <expected-out-file> [crash] [exit]"""
import sys,json,base64,os
prop,fid,status,commit,scope,what,srcf,outf=sys.argv[1:9]
crash=sys.argv[9] if len(sys.argv)>9 else ""
exitc=int(sys.argv[10]) if len(sys.argv)>10 else 0
p='/verif/harness/props/%s/findings.json'%prop.lower()
f=json.load(open(p)) if os.path.exists(p) else []
f=[x for x in f if x['id']!=fid]
e={"property":prop,"id":fid,"status":status,"what":what,
   "witness":{"id":"finding:"+fid,"data":{"kind":"gen","name":"finding:"+fid,"source":open(srcf).read(),"want_out":base64.b64encode(open(outf,'rb').read()).decode(),"want_crash":crash,"want_exit":exitc,"use_ctx":False}}}
if commit!='-': e['commit']=commit
if scope!='-': e['scope']=scope
f.append(e)
json.dump(f,open(p,'w'),indent=1,ensure_ascii=False)
kf=json.load(open('/verif/known_findings.json'))
kf['findings']=[x for x in kf['findings'] if x['property']!=prop]+f
json.dump(kf,open('/verif/known_findings.json','w'),indent=1,ensure_ascii=False)
print('ok',len(f))
