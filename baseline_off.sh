#!/bin/bash
# Runs the repository's own test suite with the verif guard OFF (no -tags verif).
. "$(dirname "$0")/env.sh"
rc=0
for m in . ./test; do
  (cd /repo/$m && "$VGO" test -mod=mod -vet=off -count=1 -timeout 25m ./...) || rc=1
done
exit $rc
