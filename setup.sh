#!/bin/bash
# setup_cmd: offline build of the framework and warm-up of the build cache.
set -e
cd "$(dirname "$0")"
. ./env.sh
"$VGO" version
mkdir -p "$VERIF_BIN" evidence replays
(cd harness && "$VGO" build -tags verif -o "$VERIF_BIN/vcheck.setup" ./cmd/vcheck)
(cd harness && "$VGO" build -race -tags verif -o "$VERIF_BIN/vcheck-race.setup" ./cmd/vcheck)
(cd harness && "$VGO" test -tags verif ./oracle/... 2>&1 | tail -20) || { echo "oracle self-tests failed"; exit 1; }
rm -f "$VERIF_BIN/vcheck.setup" "$VERIF_BIN/vcheck-race.setup"
echo "setup ok"
