#!/usr/bin/env python3
"""Development aid: summarise C01-style replay files (first differing output line + source of its tag)."""
import json,glob,re,sys,base64,collections
pid=sys.argv[1] if len(sys.argv)>1 else 'C01'
for f in sorted(glob.glob('/verif/replays/%s/*.json'%pid)):
    r=json.load(open(f))
    d=r['result']['detail']
    cd=r['case']['data']
    src=cd.get('source','')
    first=d.split('\n')[0]
    if 'printed output differs' in first:
        want=base64.b64decode(cd['want_out']).decode('utf-8','backslashreplace')
        m=re.search(r'--- scriggo, from byte (\d+) ---\n"(.*)"',d,re.S)
        lo=int(m.group(1))
        pos=int(re.search(r'differs at byte (\d+)',first).group(1))
        # gc line containing pos
        ls=want.rfind('\n',0,pos)+1; le=want.find('\n',pos); le=len(want) if le<0 else le
        gl=want[ls:le]
        sc=m.group(2).encode().decode('unicode_escape','replace') if False else m.group(2)
        print('==',f.split('/')[-1],r['case']['id'],first[:90])
        print('   gc line :',repr(gl[:200]))
        # scriggo text is %q-quoted go string; show window after (pos-lo)
        try:
            scu=json.loads('"'+sc.replace('\\x','\\u00').replace("\\'","'")+'"') if '\\U' not in sc else sc
        except Exception as e:
            scu=sc
        off=ls-lo
        print('   sc there:',repr(scu[max(off,0):max(off,0)+200]))
        tag=gl.split(' ')[0].split(':')[0]
        for l in src.split('\n'):
            if '"'+tag+'"' in l or '"'+tag+' ' in l: print('   src:',l.strip()[:400])
    else:
        frames=re.findall(r'(/repo/\S+:\d+)',d)
        print('==',f.split('/')[-1],r['case']['id'],first[:160],' '.join(frames[:5]))
