#!/usr/bin/env python3
"""Assembles MANIFEST.json from harness/props/*/meta.json, manifest_base.json and not_applicable.json."""
import json, glob, os, sys
root = os.path.dirname(os.path.abspath(__file__))
base = json.load(open(os.path.join(root, "manifest_base.json")))
checks = []
landed = open(os.path.join(root, "harness/props/props.go")).read()
findings = []
applied = {}
ap = os.path.join(root, "proposed_fixes/APPLIED.txt")
if os.path.exists(ap):
    for l in open(ap):
        if l.strip():
            k, v = l.split()
            applied[k] = v
for p in sorted(glob.glob(os.path.join(root, "harness/props/*/meta.json"))):
    m = json.load(open(p))
    pid = m["property_id"]
    if '"verif/props/%s"' % pid.lower() not in landed:
        continue
    fp = os.path.join(os.path.dirname(p), "findings.json")
    if os.path.exists(fp):
        for e in json.load(open(fp)):
            # a fixed entry names the proposed diff it was repaired by; the commit id comes from APPLIED.txt
            fx = e.get("fix", "")
            if fx and not fx.endswith(".diff"):
                fx += ".diff"
            if e.get("status") == "fixed" and e.get("commit", "PENDING") in ("PENDING", "") and fx in applied:
                e["commit"] = applied[fx]
            findings.append(e)
    c = {
        "property_id": pid,
        "quick_cmd": m.get("quick_cmd", "./check %s quick" % pid),
        "thorough_cmd": m.get("thorough_cmd", "./check %s thorough" % pid),
        "evidence_file": "/verif/evidence/%s.json" % pid,
        "replay_cmd_template": "./check %s --replay {path}" % pid,
        "engine": "vcheck",
        "level_claimed": m["level_claimed"],
        "level_note": m["level_note"],
        "technique": m["technique"],
    }
    checks.append(c)
base["checks"] = checks
claimed = {c["property_id"] for c in checks}
props = [json.loads(l)["id"] for l in open(os.path.join(root, "properties.jsonl"))]
na_reasons = json.load(open(os.path.join(root, "not_applicable.json")))
na = []
for pid in props:
    if pid not in claimed:
        na.append({"property_id": pid, "reason": na_reasons.get(pid, "no check built yet in this framework (work in progress); not claimed")})
base["not_applicable"] = na
base["hooks"]["source_commits"] = [l.split()[0] for l in os.popen("git -C /repo log --format='%h %s' --grep='^verif hooks' ").read().splitlines()]
for e in base["engines"]:
    e["serves_properties"] = sorted(claimed)
def dump_atomic(obj, path):
    tmp = path + ".tmp%d" % os.getpid()
    json.dump(obj, open(tmp, "w"), indent=1)
    os.replace(tmp, path)
dump_atomic(base, os.path.join(root, "MANIFEST.json"))
for f in findings:
    what = " ".join(str(f.get("what", "")).split())
    if f.get("status") == "fixed":
        f["record"] = "fixed: property=%s %s %s" % (f["property"], f.get("commit", "PENDING"), what)
    else:
        f["record"] = "KNOWN-FINDING: property=%s %s (%s)" % (f["property"], what, f["id"])
kf = {"comment": "Genuine defects of the pinned tree, merged from harness/props/*/findings.json by gen_manifest.py. status=open: recorded, witness replayed on every run (prints KNOWN-FINDING while it still fails); 'scope' names the generator predicate that keeps the random sweep off exactly that construct. status=fixed: repaired by the named fix: commit in /repo; suppresses nothing, witness replayed as a regression case. 'record' is the one-line form of the entry (fixed: property=<id> <commit> <what failed> / KNOWN-FINDING: property=<id> <what fails>).", "findings": findings}
dump_atomic(kf, os.path.join(root, "known_findings.json"))
print("MANIFEST.json: %d checks, %d not_applicable" % (len(checks), len(na)))
