#!/bin/bash
# Development aid: list recent /repo commits whose change is no longer reverse-applicable at HEAD
# (a later commit modified or reverted it). Known benign entries are filtered.
cd /repo
for c in $(git log --format=%h -${1:-40}); do
  git diff $c^ $c > /tmp/audit-c.diff
  git apply --reverse --check /tmp/audit-c.diff 2>/dev/null || echo "NOT-PRESENT $c $(git log --format=%s -1 $c | cut -c1-80)"
done | grep -v "aa018b1\|8c32d42\|c968675\|6838018\|13d1261\|52b4f75\|0e86de9\|7c0fd0a\|36c341f"
