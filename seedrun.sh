#!/bin/bash
# Development aid: confirm a seeded change and run the property's check against it.
# usage: seedrun.sh <Cxx> <mN> [other check ids...]   (reads /tmp/seed-Cxx/_out/mN.*)
. /verif/env.sh
id=$1; m=$2; shift 2; extra="$@"
src=${SEED_SRC:-/tmp/seed-$id/_out}
W=/tmp/mut-$id-$m
out=/verif/seeded/$id-$m
rm -rf $W; git -C /repo worktree prune; git -C /repo worktree add -q --detach $W HEAD || exit 2
cleanup() { git -C /repo worktree remove --force $W 2>/dev/null; rm -rf /tmp/vcheck-bin-$(printf %s "$W" | sha1sum | cut -c1-12); }
trap cleanup EXIT
cd $W
if ! git apply $src/$m.diff 2>/dev/null; then
  if ! git apply --3way $src/$m.diff 2>/dev/null; then echo "RESULT $id $m: patch does not apply to current HEAD"; exit 3; fi
  git reset -q
fi
mkdir -p _out; cp -r $src/${m}_demo* _out/ 2>/dev/null; for f in $src/*_test.go; do case "$(basename $f)" in m[0-9]_*) ;; *) cp $f _out/ 2>/dev/null;; esac; done
# SEED_DEMO_PKG=<dir>: the demo is an internal test of that package (copied there as zz_<m>_demo_test.go)
# SEED_DEMO_SHARED=1: the demo shares helpers with the other demo test files of the property (all copied, run with -run TestM<N>)
N=${m#m}
if [ -n "${SEED_DEMO_PKG:-}" ]; then rm -rf _out; fi
suite=pass
( "$VGO" test -vet=off -count=1 ./... >/tmp/suite-$id-$m.log 2>&1 && cd test && "$VGO" test -mod=mod -vet=off -count=1 ./... >>/tmp/suite-$id-$m.log 2>&1 ) || suite=FAIL
rm -f test/compare/cmd/cmd
rundemo() { # $1 = log
  local rc=0 d
  : > "$1"
  if [ -n "${SEED_DEMO_PKG:-}" ]; then
    cp $src/${m}_demo_test.go $SEED_DEMO_PKG/zz_${m}_demo_test.go
    "$VGO" test -vet=off -count=1 -run "TestM${N}" ./$SEED_DEMO_PKG/ >>"$1" 2>&1 || rc=1
    rm -f $SEED_DEMO_PKG/zz_${m}_demo_test.go
    return $rc
  fi
  if [ -n "${SEED_DEMO_SHARED:-}" ]; then
    mkdir -p _out; cp $src/m[0-9]_demo_test.go _out/; for f in $src/*_test.go; do cp $f _out/; done
    "$VGO" test -vet=off -count=1 -run "TestM${N}" ./_out/ >>"$1" 2>&1 || rc=1
    return $rc
  fi
  for d in $(find _out -name '*_test.go' -o -name 'main.go' | xargs -n1 dirname | sort -u); do
    if ls $d/*_test.go >/dev/null 2>&1; then "$VGO" test -vet=off -count=1 ./$d/ >>"$1" 2>&1 || rc=1; else "$VGO" run ./$d/ >>"$1" 2>&1 || rc=1; fi
  done
  return $rc
}
demo_with=pass
rundemo /tmp/demo-with-$id-$m.log || demo_with=fail
chk=""; rm -f /tmp/check-$id-$m-*.log
for c in $id $extra; do
  (cd /verif && VERIF_REPO=$W ./check $c quick >/tmp/check-$id-$m-$c.log 2>&1); rc=$?
  chk="$chk $c:quick:rc=$rc"
  if [ $rc -eq 0 ] && [ "$c" = "$id" ]; then
    (cd /verif && VERIF_REPO=$W ./check $c thorough >/tmp/check-$id-$m-$c-thorough.log 2>&1); rc=$?
    chk="$chk $c:thorough:rc=$rc"
  fi
done
git checkout -q -- . ; 
demo_without=pass
rundemo /tmp/demo-without-$id-$m.log || demo_without=fail
echo "RESULT $id $m: suite_with_change=$suite demo_with=$demo_with demo_without=$demo_without checks:$chk"
mkdir -p $out; cp $src/$m.diff $out/patch.diff; cp -r $src/${m}_demo* $out/ 2>/dev/null; cp $src/$m.md $out/description.md 2>/dev/null
grep -h "^DETAIL\|^VIOLATION\|^SUMMARY" /tmp/check-$id-$m-*.log | cut -c1-400 | head -6 > $out/check_output.txt
python3 - "$id" "$m" "$suite" "$demo_with" "$demo_without" "$chk" <<'PY'
import json,sys,os
id,m,suite,dw,dwo,chk=sys.argv[1:7]
out='/verif/seeded/%s-%s'%(id,m)
md=open(out+'/description.md').read() if os.path.exists(out+'/description.md') else ''
meta={"property":id,"change":m,"source":"independent sub-agent given only the property text and a scratch worktree",
 "needs_to_manifest":md[:1500],
 "confirmed":{"repo_suite_passes_with_change":suite=="pass","demo_fails_with_change":dw=="fail","demo_passes_without_change":dwo=="pass"},
 "checks_run":chk.strip().split(),
 "commands":["git worktree add /tmp/mut HEAD; git apply patch.diff","go test ./... (root and test/)","go test ./_out/... (demo)","VERIF_REPO=/tmp/mut ./check %s quick (thorough if quick passes)"%id]}
json.dump(meta,open(out+'/meta.json','w'),indent=1)
PY
