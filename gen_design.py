#!/usr/bin/env python3
"""Regenerates the machine-written sections of DESIGN.md (between AUTO markers):
the table of landed checks, the findings list and the seeded-change results."""
import json, glob, os, re
root = os.path.dirname(os.path.abspath(__file__))
def esc(s): return s.replace('|','\\|').replace('\n',' ')
man = json.load(open(root+'/MANIFEST.json'))
kf = json.load(open(root+'/known_findings.json'))['findings']
out = []
out.append('### Landed checks (from MANIFEST.json)\n')
out.append('| id | level | technique | last evidence: evaluations / distinct | findings fixed / open |')
out.append('|---|---|---|---|---|')
for c in man['checks']:
    pid = c['property_id']
    ev = {}
    p = root+'/evidence/%s.json' % pid
    if os.path.exists(p):
        ev = json.load(open(p))
    cov = ev.get('coverage', {})
    fx = sum(1 for f in kf if f['property']==pid and f['status']=='fixed')
    op = sum(1 for f in kf if f['property']==pid and f['status']=='open')
    out.append('| %s | %s | %s | %s / %s (%s, seed %s) | %d / %d |' % (pid, c['level_claimed']['category'], esc(c.get('technique','')), cov.get('evaluations','?'), cov.get('distinct_nontrivial','?'), ev.get('tier','?'), ev.get('seed','?'), fx, op))
out.append('')
out.append('### Open findings (genuine defects recorded, not repaired)\n')
for f in kf:
    if f['status']=='open':
        out.append('* **%s** (scope `%s`): %s' % (f['id'], f.get('scope',''), esc(f['what'])[:600]))
out.append('')
out.append('### Repaired defects (`fix:` commits in /repo; witnesses replayed as regression cases)\n')
for f in kf:
    if f['status']=='fixed':
        out.append('* %s `%s` — %s' % (f['id'], f.get('commit','?'), esc(f['what'])[:300]))
out.append('')
out.append('### Seeded changes (independent sub-agents, property text only) and what the checks did\n')
out.append('| change | confirmed (suite passes / demo fails with / passes without) | checks run | what it needs to manifest |')
out.append('|---|---|---|---|')
for p in sorted(glob.glob(root+'/seeded/*/meta.json')):
    m = json.load(open(p))
    name = os.path.basename(os.path.dirname(p))
    cf = m.get('confirmed', {})
    conf = '%s / %s / %s' % ('yes' if cf.get('repo_suite_passes_with_change') else 'NO', 'yes' if cf.get('demo_fails_with_change') else 'NO', 'yes' if cf.get('demo_passes_without_change') else 'NO')
    runs = []
    for r in m.get('checks_run', []):
        a = r.split(':')
        if len(a)==3: runs.append('%s %s: %s' % (a[0], a[1], 'CAUGHT' if a[2]=='rc=1' else ('missed' if a[2]=='rc=0' else a[2])))
    note = m.get('lead_note','')
    need = esc(m.get('needs_to_manifest',''))[:260]
    out.append('| %s | %s | %s%s | %s |' % (name, conf, '; '.join(runs), (' — '+esc(note)) if note else '', need))
out.append('')
text = '\n'.join(out)
d = open(root+'/DESIGN.md').read()
d2 = re.sub(r'(<!-- AUTO:BEGIN -->).*?(<!-- AUTO:END -->)', lambda m: m.group(1)+'\n'+text+'\n'+m.group(2), d, flags=re.S)
open(root+'/DESIGN.md','w').write(d2)
print('DESIGN.md tables regenerated')
